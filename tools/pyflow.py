"""pyflow: static translator (stdlib `ast` only, never imports the code under test).
/repo/src/hmf framework classes  ->  class descriptors: parameters (kind), cached quantities as *read programs*
(`Tm`: ordered reads, short-circuits, branches, raises, `super` calls), constructor programs, validate chains,
facts (plain-attribute reads, mutable default arguments, ...).  Output: Lean source (Gen/Desc.lean) + JSON."""
import ast, os, sys, json

SRC = os.path.join(os.environ.get("HMF_REPO", "/repo"), "src", "hmf")
FILES = {"Cosmology": "cosmology/cosmo.py", "Transfer": "density_field/transfer.py", "MassFunction": "mass_function/hmf.py",
         "TransferWDM": "alternatives/wdm.py", "MassFunctionWDM": "alternatives/wdm.py"}
FRAMEWORKS = ["Cosmology", "Transfer", "MassFunction", "TransferWDM", "MassFunctionWDM"]


class ClassInfo:
    def __init__(self, name, node, aliases):
        self.name, self.node, self.aliases = name, node, aliases
        self.bases = []
        for b in node.bases:
            n = b.id if isinstance(b, ast.Name) else (b.attr if isinstance(b, ast.Attribute) else None)
            n = aliases.get(n, n)
            if n in FRAMEWORKS:
                self.bases.append(n)
        self.params, self.quants, self.methods = {}, {}, {}
        for s in node.body:
            if not isinstance(s, ast.FunctionDef):
                continue
            kind = None
            for d in s.decorator_list:
                src = ast.unparse(d)
                if src.endswith("cached_quantity"):
                    kind = ("q", None)
                elif "parameter(" in src and isinstance(d, ast.Call) and d.args:
                    kind = ("p", ast.literal_eval(d.args[0]))
                elif src.endswith("subframework"):
                    kind = ("sub", None)
            if kind is None:
                self.methods[s.name] = s
            elif kind[0] == "p":
                self.params[s.name] = (kind[1], s)
            elif kind[0] == "q":
                self.quants[s.name] = s
            else:
                self.methods[s.name] = s
                self.subframework = True


def load():
    infos = {}
    for cname, rel in FILES.items():
        tree = ast.parse(open(os.path.join(SRC, rel)).read())
        aliases = {}
        for n in ast.walk(tree):
            if isinstance(n, ast.ImportFrom):
                for a in n.names:
                    if a.asname:
                        aliases[a.asname] = a.name
        for n in tree.body:
            if isinstance(n, ast.ClassDef) and n.name == cname:
                infos[cname] = ClassInfo(cname, n, aliases)
                infos[cname].modfuncs = {f.name: f for f in tree.body if isinstance(f, ast.FunctionDef)}
    return infos


def c3(infos, c):
    def merge(seqs):
        out = []
        seqs = [list(s) for s in seqs if s]
        while seqs:
            for s in seqs:
                h = s[0]
                if not any(h in t[1:] for t in seqs):
                    break
            else:
                raise ValueError("inconsistent MRO")
            out.append(h)
            seqs = [[x for x in t if x != h] for t in seqs]
            seqs = [t for t in seqs if t]
        return out
    bs = infos[c].bases
    return [c] + merge([c3(infos, b) for b in bs] + [bs])


class Flow:
    """translate one function body of class `owner` (in the MRO of `cls`) into a Tm"""

    def __init__(self, tr, cls, owner):
        self.tr, self.cls, self.owner = tr, cls, owner
        self.tests = tr.tests

    def test_id(self, node):
        s = ast.unparse(node)[:120]
        if s not in self.tests:
            self.tests[s] = len(self.tests) + 1
        return self.tests[s]

    def seq(self, parts):
        parts = [p for p in parts if p is not None]
        if not parts:
            return None
        out = parts[-1]
        for p in reversed(parts[:-1]):
            out = ("P", 0, p, out)
        return out

    def self_attr(self, attr, node):
        tr = self.tr
        if attr in tr.all_params[self.cls]:
            return ("p", attr)
        if attr in tr.all_quants[self.cls]:
            return ("q", attr)
        return None

    def expr(self, e, depth=0):
        """Tm for the reads performed by evaluating expression e (None if no reads)"""
        if e is None:
            return None
        tr = self.tr
        if isinstance(e, ast.Attribute):
            # a deep copy / clone of the instance held in a local: what is read on the copy is a function of what the instance holds,
            # so it counts as a read of the instance (`new = copy.deepcopy(self); new.update(...); new.dndm` reads `dndm`)
            if isinstance(e.value, ast.Name) and e.value.id in getattr(self, "copies", ()):
                if e.attr == getattr(self, "current", None):
                    return None            # the quantity being defined, asked of a copy with other parameters: not a read of itself
                t = self.self_attr(e.attr, e)
                if t is not None:
                    return t
                return None
            if isinstance(e.value, ast.Name) and e.value.id == "self":
                t = self.self_attr(e.attr, e)
                if t is not None:
                    return t
                if e.attr in tr.all_methods[self.cls]:
                    return None            # bound method object; reads happen at the call
                tr.plain_attr.append(f"{self.owner}:{e.attr}")
                return None
            if isinstance(e.value, ast.Call) and isinstance(e.value.func, ast.Name) and e.value.func.id == "super":
                mro = tr.mro[self.cls]
                i = mro.index(self.owner)
                for o in mro[i + 1:]:
                    if e.attr in tr.infos[o].quants:
                        return ("s", o, e.attr)
                    if e.attr in tr.infos[o].params:
                        return ("p", e.attr)
                tr.unsupported.append(f"{self.owner}: super().{e.attr}")
                return None
            return self.expr(e.value, depth)
        if isinstance(e, ast.Call):
            f = e.func
            # self.method(args): inline the method's reads after the arguments
            if isinstance(f, ast.Attribute) and isinstance(f.value, ast.Name) and f.value.id == "self" \
                    and f.attr in tr.all_methods[self.cls] and self.self_attr(f.attr, f) is None and depth < 4:
                owner_m, fn = tr.all_methods[self.cls][f.attr]
                args = [self.expr(a, depth) for a in e.args] + [self.expr(k.value, depth) for k in e.keywords]
                sub_ = Flow(tr, self.cls, owner_m); sub_.current = getattr(self, "current", None)
                inner = sub_.block(fn.body, depth + 1)
                return self.seq(args + [inner])
            # helper(self, ...): a function of the owner's module handed the instance; its reads through that
            # parameter are the instance's reads
            mf = getattr(tr.infos[self.owner], "modfuncs", {})
            if isinstance(f, ast.Name) and f.id in mf and depth < 4:
                fn = mf[f.id]
                pos = [a.arg for a in fn.args.posonlyargs + fn.args.args]
                bound = [pos[j] for j, a in enumerate(e.args) if isinstance(a, ast.Name) and a.id == "self" and j < len(pos)]
                bound += [k.arg for k in e.keywords if isinstance(k.value, ast.Name) and k.value.id == "self" and k.arg]
                if len(bound) == 1 and not any(isinstance(n, ast.Name) and n.id == bound[0] and isinstance(n.ctx, ast.Store) for n in ast.walk(fn)):
                    consts = {pos[j]: a for j, a in enumerate(e.args) if isinstance(a, ast.Constant) and j < len(pos)}
                    consts.update({k.arg: k.value for k in e.keywords if isinstance(k.value, ast.Constant) and k.arg})
                    stored = {n.id for n in ast.walk(fn) if isinstance(n, ast.Name) and isinstance(n.ctx, ast.Store)}
                    consts = {k_: v_ for k_, v_ in consts.items() if k_ not in stored}

                    class _R(ast.NodeTransformer):
                        def visit_Name(s_, n):
                            if n.id == bound[0]:
                                return ast.copy_location(ast.Name(id="self", ctx=n.ctx), n)
                            if n.id in consts and isinstance(n.ctx, ast.Load):
                                return ast.copy_location(ast.Constant(value=consts[n.id].value), n)
                            return n

                        def visit_Call(s_, c):
                            c = s_.generic_visit(c)
                            # getattr(self, "name") is the attribute read self.name
                            if isinstance(c.func, ast.Name) and c.func.id == "getattr" and len(c.args) == 2 and isinstance(c.args[1], ast.Constant) \
                                    and isinstance(c.args[1].value, str) and isinstance(c.args[0], ast.Name) and c.args[0].id == "self":
                                return ast.copy_location(ast.Attribute(value=c.args[0], attr=c.args[1].value, ctx=ast.Load()), c)
                            return c
                    import copy as _copy
                    body = [_R().visit(_copy.deepcopy(st)) for st in fn.body]
                    args = [self.expr(a, depth) for a in e.args] + [self.expr(k.value, depth) for k in e.keywords]
                    sub_ = Flow(tr, self.cls, self.owner); sub_.current = getattr(self, "current", None)
                    return self.seq(args + [sub_.block(body, depth + 1)])
            parts = [self.expr(f, depth)] + [self.expr(a, depth) for a in e.args] + [self.expr(k.value, depth) for k in e.keywords]
            return self.seq(parts)
        if isinstance(e, ast.BoolOp):
            # a or b / a and b : short-circuit
            vals = e.values
            out = self.expr(vals[-1], depth)
            for v in reversed(vals[:-1]):
                g = self.expr(v, depth) or ("c", 0)
                tid = self.test_id(v)
                out = ("I", tid, g, ("c", 0), out or ("c", 0)) if isinstance(e.op, ast.Or) else ("I", tid, g, out or ("c", 0), ("c", 0))
            return out
        if isinstance(e, ast.IfExp):
            return ("I", self.test_id(e.test), self.expr(e.test, depth) or ("c", 0), self.expr(e.body, depth) or ("c", 0), self.expr(e.orelse, depth) or ("c", 0))
        if isinstance(e, ast.Lambda):
            return self.expr(e.body, depth)
        if isinstance(e, (ast.ListComp, ast.GeneratorExp, ast.SetComp, ast.DictComp)):
            parts = []
            for g in e.generators:
                parts.append(self.expr(g.iter, depth))
                parts += [self.expr(c, depth) for c in g.ifs]
            parts.append(self.expr(e.elt if not isinstance(e, ast.DictComp) else e.value, depth))
            return self.seq(parts)
        parts = []
        for ch in ast.iter_child_nodes(e):
            if isinstance(ch, ast.expr):
                parts.append(self.expr(ch, depth))
            elif isinstance(ch, ast.keyword):
                parts.append(self.expr(ch.value, depth))
        return self.seq(parts)

    def block(self, body, depth=0):
        tr = self.tr
        parts = []
        for i, s in enumerate(body):
            if isinstance(s, ast.Expr):
                if isinstance(s.value, ast.Constant):
                    continue
                parts.append(self.expr(s.value, depth))
            elif isinstance(s, (ast.Assign, ast.AugAssign, ast.AnnAssign)):
                tgts = s.targets if isinstance(s, ast.Assign) else [s.target]
                v_ = s.value
                if isinstance(v_, ast.Call) and len(tgts) == 1 and isinstance(tgts[0], ast.Name):
                    fsrc = ast.unparse(v_.func)
                    if (fsrc in ("copy.deepcopy", "deepcopy", "copy.copy") and len(v_.args) == 1 and isinstance(v_.args[0], ast.Name) and v_.args[0].id == "self") \
                            or fsrc == "self.clone":
                        self.copies = set(getattr(self, "copies", ())) | {tgts[0].id}
                for t in tgts:
                    for n in ast.walk(t):
                        if isinstance(n, ast.Attribute) and isinstance(n.value, ast.Name) and n.value.id == "self" and isinstance(n.ctx, ast.Store):
                            tr.self_writes.append(f"{self.owner}:{n.attr}")
                    if isinstance(t, ast.Subscript):
                        parts.append(self.expr(t.value, depth))
                parts.append(self.expr(s.value, depth))
            elif isinstance(s, ast.Return):
                parts.append(self.expr(s.value, depth))
                return self.seq(parts)
            elif isinstance(s, ast.If):
                rest = body[i + 1:]
                g = self.expr(s.test, depth) or ("c", 0)
                t = self.block(s.body + rest, depth) or ("c", 0)
                e = self.block(s.orelse + rest, depth) or ("c", 0)
                parts.append(("I", self.test_id(s.test), g, t, e))
                return self.seq(parts)
            elif isinstance(s, ast.Assert):
                g = self.expr(s.test, depth) or ("c", 0)
                rest = self.block(body[i + 1:], depth) or ("c", 0)
                parts.append(("R", self.test_id(s.test), g, rest))
                return self.seq(parts)
            elif isinstance(s, ast.Raise):
                parts.append(self.expr(s.exc, depth))
                parts.append(("R", 0, ("c", 0), ("c", 0)))   # test 0 is the constant-true oracle
                return self.seq(parts)
            elif isinstance(s, ast.Try):
                parts.append(self.block(s.body, depth))
                for h in s.handlers:
                    parts.append(self.block(h.body, depth))
                parts.append(self.block(s.orelse + s.finalbody, depth))
            elif isinstance(s, (ast.For, ast.While)):
                parts.append(self.expr(s.iter if isinstance(s, ast.For) else s.test, depth))
                parts.append(self.block(s.body, depth))
            elif isinstance(s, ast.With):
                for it in s.items:
                    parts.append(self.expr(it.context_expr, depth))
                parts.append(self.block(s.body, depth))
            elif isinstance(s, ast.FunctionDef):
                parts.append(self.block(s.body, depth))
            elif isinstance(s, (ast.Pass, ast.Import, ast.ImportFrom, ast.Global, ast.Nonlocal, ast.Delete)):
                continue
            else:
                tr.unsupported.append(f"{self.owner}: stmt {type(s).__name__}")
        return self.seq(parts)


class Translator:
    def __init__(self):
        self.infos = load()
        self.mro = {c: c3(self.infos, c) for c in FRAMEWORKS}
        self.tests = {}
        self.unsupported, self.plain_attr, self.self_writes = [], [], []
        self.all_params, self.all_quants, self.all_methods = {}, {}, {}
        for c in FRAMEWORKS:
            ps, qs, ms = {}, {}, {}
            for o in reversed(self.mro[c]):
                for n, (k, fn) in self.infos[o].params.items():
                    ps[n] = (o, k, fn)
                for n, fn in self.infos[o].quants.items():
                    qs[n] = (o, fn)
                for n, fn in self.infos[o].methods.items():
                    ms[n] = (o, fn)
            # Framework base-class methods/attributes that are not instance state
            for n in ("update", "clone", "validate", "parameter_values", "get_dependencies", "_validate", "_validate_every_param_set",
                      "__class__", "__dict__"):
                ms.setdefault(n, ("Framework", ast.parse("def f(self): pass").body[0]))
            self.all_params[c], self.all_quants[c], self.all_methods[c] = ps, qs, ms

    def names(self):
        """global name table: parameters then quantities (sorted), over all five classes"""
        ps = sorted({n for c in FRAMEWORKS for n in self.all_params[c]})
        qs = sorted({n for c in FRAMEWORKS for n in self.all_quants[c]})
        return ps, qs

    def describe(self, cls):
        ps, qs = self.names()
        idx = {n: i for i, n in enumerate(ps + qs)}
        own = {c: i for i, c in enumerate(FRAMEWORKS)}
        d = {"cls": cls, "mro": self.mro[cls], "params": {}, "bodies": [], "ctor": [], "plain_attr": [], "self_writes": []}
        for n, (o, k, fn) in sorted(self.all_params[cls].items()):
            d["params"][n] = {"owner": o, "kind": k}
        n0 = (len(self.plain_attr), len(self.self_writes))
        for o in self.mro[cls]:
            for n, fn in sorted(self.infos[o].quants.items()):
                fl_ = Flow(self, cls, o); fl_.current = n
                tm = fl_.block(fn.body) or ("c", 0)
                d["bodies"].append({"owner": o, "name": n, "tm": tm})
        # validate chain: most-derived validate; super().validate() inlined
        d["validate"] = self.validate_tm(cls, 0) or ("c", 0)
        # constructor program
        for o in self.mro[cls]:
            fn = self.infos[o].methods.get("__init__")
            if fn is None:
                continue
            kws = [a.arg for a in fn.args.args[1:]] + [a.arg for a in fn.args.kwonlyargs]
            # keywords accepted through the ** dictionary by name (`kwargs.pop("x")`, `kwargs.get("x")`, `kwargs["x"]`, `"x" in kwargs`)
            # are constructor keywords too, although no signature lists them
            if fn.args.kwarg is not None:
                kwname = fn.args.kwarg.arg
                for s_ in ast.walk(fn):
                    lit = None
                    if isinstance(s_, ast.Call) and isinstance(s_.func, ast.Attribute) and isinstance(s_.func.value, ast.Name) and s_.func.value.id == kwname \
                            and s_.func.attr in ("pop", "get", "setdefault") and s_.args and isinstance(s_.args[0], ast.Constant) and isinstance(s_.args[0].value, str):
                        lit = s_.args[0].value
                    if isinstance(s_, ast.Subscript) and isinstance(s_.value, ast.Name) and s_.value.id == kwname and isinstance(s_.slice, ast.Constant) and isinstance(s_.slice.value, str):
                        lit = s_.slice.value
                    if isinstance(s_, ast.Compare) and len(s_.ops) == 1 and isinstance(s_.ops[0], (ast.In, ast.NotIn)) and isinstance(s_.left, ast.Constant) \
                            and isinstance(s_.left.value, str) and isinstance(s_.comparators[0], ast.Name) and s_.comparators[0].id == kwname:
                        lit = s_.left.value
                    if lit is not None and lit not in kws:
                        kws.append(lit)
                    # a key that is not a literal (e.g. a loop variable over a tuple of names): every identifier-like string constant of
                    # the constructor may be one
                    dyn = (isinstance(s_, ast.Call) and isinstance(s_.func, ast.Attribute) and isinstance(s_.func.value, ast.Name) and s_.func.value.id == kwname
                           and s_.func.attr in ("pop", "get", "setdefault") and s_.args and not isinstance(s_.args[0], ast.Constant)) or \
                          (isinstance(s_, ast.Subscript) and isinstance(s_.value, ast.Name) and s_.value.id == kwname and not isinstance(s_.slice, ast.Constant))
                    if dyn:
                        for c_ in ast.walk(fn):
                            if isinstance(c_, ast.Constant) and isinstance(c_.value, str) and c_.value.isidentifier() and c_.value not in kws:
                                kws.append(c_.value)
            defaults = fn.args.defaults
            mut = []
            for a, dv in zip(fn.args.args[len(fn.args.args) - len(defaults):], defaults):
                if isinstance(dv, (ast.Dict, ast.List, ast.Set)) or (isinstance(dv, ast.Call) and not ast.unparse(dv).startswith("np.log")):
                    mut.append(a.arg)
            assigned = []
            for s in ast.walk(fn):
                if isinstance(s, ast.Assign):
                    for t in s.targets:
                        if isinstance(t, ast.Attribute) and isinstance(t.value, ast.Name) and t.value.id == "self":
                            assigned.append(t.attr)
            d["ctor"].append({"owner": o, "kw": kws, "assigned": assigned, "mutable_defaults": mut})
        d["plain_attr"] = sorted(set(self.plain_attr[n0[0]:]))
        d["self_writes"] = sorted(set(self.self_writes[n0[1]:]))
        d["subframework"] = any(getattr(self.infos[o], "subframework", False) for o in self.mro[cls])
        return d

    def validate_tm(self, cls, start):
        mro = self.mro[cls]
        for o in mro[start:]:
            fn = self.infos[o].methods.get("validate")
            if fn is None:
                continue
            body = [s for s in fn.body if not (isinstance(s, ast.Expr) and "super().validate()" in ast.unparse(s))]
            has_super = len(body) != len(fn.body)
            fl = Flow(self, cls, o)
            own = fl.block(body)
            parent = self.validate_tm(cls, mro.index(o) + 1) if has_super else None
            # parent.validate() runs first (it is the first statement in every validate of this repo)
            if parent is None:
                return own
            return self._chain(parent, own)
        return None

    @staticmethod
    def _chain(a, b):
        """sequence two validate bodies: b runs after the non-raising exit of a"""
        if a is None:
            return b
        if b is None:
            return a
        tag = a[0]
        if tag == "R":
            return ("R", a[1], a[2], Translator._chain(a[3], b))
        if tag == "P":
            return ("P", a[1], a[2], Translator._chain(a[3], b))
        return ("P", 0, a, b)


# ---------- Lean emission
def lean_tm(t, idx, own):
    tag = t[0]
    if tag == "p":
        return f"(.p {idx[t[1]]})"
    if tag == "q":
        return f"(.q {idx[t[1]]})"
    if tag == "s":
        return f"(.sup {own[t[1]]} {idx[t[2]]})"
    if tag == "c":
        return f"(.const {t[1]})"
    if tag == "P":
        return f"(.pair {t[1]} {lean_tm(t[2], idx, own)} {lean_tm(t[3], idx, own)})"
    if tag == "I":
        return f"(.ite {t[1]} {lean_tm(t[2], idx, own)} {lean_tm(t[3], idx, own)} {lean_tm(t[4], idx, own)})"
    if tag == "R":
        return f"(.raiseIf {t[1]} {lean_tm(t[2], idx, own)} {lean_tm(t[3], idx, own)})"
    raise ValueError(t)


def direct_reads(t, acc=None):
    acc = acc if acc is not None else []
    if t[0] in ("p", "q"):
        acc.append((t[0], t[1]))
    elif t[0] == "s":
        acc.append(("s", t[1], t[2]))
    else:
        for x in t[1:]:
            if isinstance(x, tuple):
                direct_reads(x, acc)
    return acc


def heights(tr, cls, d):
    """topological certificate: hgt(owner,name) > hgt of everything its body reads"""
    mro = tr.mro[cls]
    bodies = {(b["owner"], b["name"]): b["tm"] for b in d["bodies"]}
    resolve = {}
    for o in reversed(mro):
        for n in tr.infos[o].quants:
            resolve[n] = o
    memo, stack = {}, set()

    def h(o, n):
        if (o, n) in memo:
            return memo[(o, n)]
        if (o, n) in stack:
            raise ValueError(f"cycle through {o}.{n}")
        stack.add((o, n))
        m = 0
        for r in direct_reads(bodies[(o, n)]):
            if r[0] == "q":
                m = max(m, 1 + h(resolve[r[1]], r[1]))
            elif r[0] == "s":
                m = max(m, 1 + h(r[1], r[2]))
        stack.discard((o, n))
        memo[(o, n)] = m
        return m
    for (o, n) in bodies:
        h(o, n)
    return memo, resolve



def model_runs(tr):
    """every call of a method of a component object held in a cached quantity (`self.<quantity>.<method>(...)`, also through
    helper methods of the class) made inside a cached-quantity body: (owner class, quantity, "<component>.<method>")"""
    rows = []
    for o in FRAMEWORKS:
        info = tr.infos[o]
        quants = {n for c in FRAMEWORKS for n in tr.all_quants[c]}

        def calls(fn, seen):
            acc = []
            # locals that hold a component (`t = self.transfer`): uses of their attributes count like `self.transfer.<attr>`
            alias = {}
            for nd in ast.walk(fn):
                if isinstance(nd, ast.Assign) and len(nd.targets) == 1 and isinstance(nd.targets[0], ast.Name):
                    v = nd.value
                    if isinstance(v, ast.Attribute) and isinstance(v.value, ast.Name) and v.value.id == "self" and v.attr in quants:
                        alias[nd.targets[0].id] = v.attr
            for nd in ast.walk(fn):
                # every use of an attribute of a component held in a cached quantity — called on the spot, bound to a local first
                # (`lnt = self.transfer.lnt`), or passed on — is a use of that component method
                if isinstance(nd, ast.Attribute) and isinstance(nd.ctx, ast.Load):
                    v = nd.value
                    if isinstance(v, ast.Attribute) and isinstance(v.value, ast.Name) and v.value.id == "self" and v.attr in quants:
                        acc.append(f"{v.attr}.{nd.attr}")
                    elif isinstance(v, ast.Name) and v.id in alias:
                        acc.append(f"{alias[v.id]}.{nd.attr}")
                if isinstance(nd, ast.Call) and isinstance(nd.func, ast.Attribute):
                    f = nd.func
                    if isinstance(f.value, ast.Name) and f.value.id == "self" and f.attr not in seen:
                        for oo in tr.mro.get(o, [o]):
                            h = tr.infos[oo].methods.get(f.attr)
                            if h is not None:
                                acc += calls(h, seen | {f.attr})
                                break
                # a function of the module handed the instance: its uses through that parameter are the instance's
                if isinstance(nd, ast.Call) and isinstance(nd.func, ast.Name) and nd.func.id in getattr(info, "modfuncs", {}) \
                        and ("fn:" + nd.func.id) not in seen:
                    g = info.modfuncs[nd.func.id]
                    pos = [a.arg for a in g.args.posonlyargs + g.args.args]
                    bound = [pos[j] for j, a in enumerate(nd.args) if isinstance(a, ast.Name) and a.id == "self" and j < len(pos)]
                    bound += [k.arg for k in nd.keywords if isinstance(k.value, ast.Name) and k.value.id == "self" and k.arg]
                    if len(bound) == 1:
                        import copy as _copy

                        class _R(ast.NodeTransformer):
                            def visit_Name(s_, n):
                                return ast.copy_location(ast.Name(id="self", ctx=n.ctx), n) if n.id == bound[0] else n
                        acc += calls(_R().visit(_copy.deepcopy(g)), seen | {"fn:" + nd.func.id})
            return acc
        for n, fn in sorted(info.quants.items()):
            for c in sorted(set(calls(fn, set()))):
                rows.append((o, n, c))
    return rows

def emit(out_lean, out_json):
    tr = Translator()
    ps, qs = tr.names()
    idx = {n: i for i, n in enumerate(ps + qs)}
    own = {c: i for i, c in enumerate(FRAMEWORKS)}
    descs = {c: tr.describe(c) for c in FRAMEWORKS}
    L = []
    L.append("import HmfVerif.Model.Desc")
    L.append("/-! GENERATED by tools/pyflow.py from /repo/src/hmf — do not edit. -/")
    L.append("namespace Hmf.Gen")
    L.append("open Hmf")
    L.append("")
    L.append("/-- name table: parameters first, then cached quantities -/")
    L.append("def names : List String := [" + ", ".join(f'"{n}"' for n in ps + qs) + "]")
    L.append(f"def nParamNames : Nat := {len(ps)}")
    L.append("def owners : List String := [" + ", ".join(f'"{c}"' for c in FRAMEWORKS) + "]")
    L.append("")
    L.append("namespace N")
    for n in ps + qs:
        L.append(f"abbrev {n} : Name := {idx[n]}")
    L.append("end N")
    L.append("")
    js = {"names": ps + qs, "nparams": len(ps), "owners": FRAMEWORKS, "tests": tr.tests, "classes": {}}
    for c in FRAMEWORKS:
        d = descs[c]
        hg, resolve = heights(tr, c, d)
        L.append(f"/-- `{c}`: MRO {d['mro']} -/")
        L.append(f"def desc{c} : ClassDesc where")
        L.append("  mro := [" + ", ".join(str(own[o]) for o in d["mro"]) + "]")
        L.append("  params := [" + ", ".join(f"({idx[n]}, {'true' if v['kind'] == 'switch' else 'false'})" for n, v in sorted(d["params"].items(), key=lambda kv: idx[kv[0]])) + "]")
        L.append("  bodies := [")
        for b in d["bodies"]:
            L.append(f"    ({own[b['owner']]}, {idx[b['name']]}, {lean_tm(b['tm'], idx, own)}),   -- {b['owner']}.{b['name']}")
        L.append("  ]")
        L.append(f"  validate := {lean_tm(d['validate'], idx, own)}")
        kws = [k for ct in d["ctor"] for k in ct["kw"]]
        asg = [k for ct in d["ctor"] for k in ct["assigned"]]
        L.append("  ctorKw := [" + ", ".join(str(idx[k]) if k in idx else "999999" for k in kws) + "]")
        L.append("  ctorAssigned := [" + ", ".join(str(idx[k]) if k in idx else "999999" for k in asg) + "]")
        L.append("  hgt := [" + ", ".join(f"(({own[o]}, {idx[n]}), {h})" for (o, n), h in sorted(hg.items(), key=lambda kv: (own[kv[0][0]], idx[kv[0][1]]))) + "]")
        L.append("  plainAttrReads := [" + ", ".join(f'"{x}"' for x in d["plain_attr"]) + "]")
        L.append("  selfWrites := [" + ", ".join(f'"{x}"' for x in d["self_writes"]) + "]")
        L.append("  mutableDefaults := [" + ", ".join(f'"{ct["owner"]}.{m}"' for ct in d["ctor"] for m in ct["mutable_defaults"]) + "]")
        L.append(f"  usesSubframework := {'true' if d['subframework'] else 'false'}")
        L.append("")
        js["classes"][c] = {"mro": d["mro"], "params": d["params"], "ctor": d["ctor"], "plain_attr": d["plain_attr"],
                            "self_writes": d["self_writes"], "resolve": resolve,
                            "edges": {f"{b['owner']}.{b['name']}": sorted({(r[1] if r[0] != 's' else f"super:{r[1]}.{r[2]}") for r in direct_reads(b["tm"])}) for b in d["bodies"]},
                            "validate_reads": sorted({r[1] for r in direct_reads(d["validate"]) if r[0] != "s"})}
    L.append("def allDescs : List (String × ClassDesc) := [" + ", ".join(f'("{c}", desc{c})' for c in FRAMEWORKS) + "]")
    L.append("")
    mr = model_runs(tr)
    L.append("/-- component-method call sites inside cached quantities: (owner class, quantity, \"<component>.<method>\") -/")
    L.append("def modelRuns : List (Nat × Name × String) := [" + ", ".join(f'({own[o]}, {idx[n]}, "{c}")' for o, n, c in mr) + "]")
    L.append("")
    js["model_runs"] = [list(r) for r in mr]
    L.append("/-- translator diagnostics (must be empty) -/")
    L.append("def unsupported : List String := [" + ", ".join(json.dumps(u) for u in tr.unsupported) + "]")
    L.append("end Hmf.Gen")
    js["unsupported"] = tr.unsupported
    text = "\n".join(L) + "\n"
    if not os.path.exists(out_lean) or open(out_lean).read() != text:
        open(out_lean, "w").write(text)
    jt = json.dumps(js, indent=1, sort_keys=True)
    if not os.path.exists(out_json) or open(out_json).read() != jt:
        open(out_json, "w").write(jt)
    return js


if __name__ == "__main__":
    verif = os.path.dirname(os.path.dirname(os.path.abspath(__file__)))
    js = emit(os.path.join(verif, "lean/HmfVerif/Gen/Desc.lean"), os.path.join(verif, "lean/HmfVerif/Gen/desc.json"))
    print("pyflow:", {c: (len(v["params"]), len(v["edges"])) for c, v in js["classes"].items()}, "unsupported:", js["unsupported"])
