"""Static table of writes to state that outlives an instance: for every function/method of the package, stores into module-level names or
into class-level attributes (`cls.x = …`, `type(self).x[...] = …`, `ClassName.x.update(…)`, `GLOBAL[key] = …`, `GLOBAL.append(…)`, `global X`).
Output: lean/HmfVerif/Gen/SharedState.lean (`Hmf.Gen.sharedStateWrites : List (String × String)`), regenerated on every run."""
import ast, os, sys, json

VERIF = os.path.dirname(os.path.dirname(os.path.abspath(__file__)))
REPO = os.environ.get("HMF_REPO", "/repo")
SRC = os.path.join(REPO, "src", "hmf")
MUTATORS = {"append", "extend", "insert", "update", "setdefault", "pop", "popitem", "clear", "add", "discard", "remove", "sort", "reverse", "__setitem__", "__delitem__"}


def lean_str(s):
    return json.dumps(s, ensure_ascii=False)


def module_level_names(tree):
    """names bound at module top level by assignment (candidates for shared mutable state) — imports, defs and classes excluded"""
    names = set()
    body = []

    def flat(stmts):
        for st in stmts:
            if isinstance(st, (ast.If, ast.Try, ast.With)):
                for fld in ("body", "orelse", "finalbody"):
                    flat(getattr(st, fld, []) or [])
                for h in getattr(st, "handlers", []) or []:
                    flat(h.body)
            else:
                body.append(st)
    flat(tree.body)
    for st in body:
        tg = []
        if isinstance(st, ast.Assign):
            tg = st.targets
        elif isinstance(st, (ast.AnnAssign, ast.AugAssign)):
            tg = [st.target]
        for t in tg:
            for n in ast.walk(t):
                if isinstance(n, ast.Name):
                    names.add(n.id)
    return names


def class_names(tree):
    return {n.name for n in ast.walk(tree) if isinstance(n, ast.ClassDef)}


def class_mutables(tree):
    """attributes bound in a class body to a mutable container (dict/list/set literal or constructor): reachable through `self.<name>` too"""
    out = set()
    for c in ast.walk(tree):
        if isinstance(c, ast.ClassDef):
            for st in c.body:
                if isinstance(st, ast.Assign) and isinstance(st.value, (ast.Dict, ast.List, ast.Set, ast.Call)):
                    if isinstance(st.value, ast.Call) and not (isinstance(st.value.func, ast.Name) and st.value.func.id in ("dict", "list", "set", "defaultdict", "OrderedDict")):
                        continue
                    for t in st.targets:
                        if isinstance(t, ast.Name):
                            out.add(t.id)
    return out


CLASS_MUTABLES = set()


def root_kind(e, mod_names, cls_names, local_names):
    """what a store target is rooted in: ('module', name) | ('class', text) | None"""
    first = True
    while isinstance(e, (ast.Subscript, ast.Attribute)):
        inner = e.value
        # self.<class-level container>[key] = … / self.<container>.update(…): the container belongs to the class, not to the instance
        if isinstance(e, ast.Subscript) and isinstance(inner, ast.Attribute) and isinstance(inner.value, ast.Name) and inner.value.id == "self" and inner.attr in CLASS_MUTABLES:
            return ("class", f"self.{inner.attr} (class-body container)")
        if isinstance(e, ast.Attribute) and not first and isinstance(inner, ast.Name) and inner.id == "self" and e.attr in CLASS_MUTABLES:
            return ("class", f"self.{e.attr} (class-body container)")
        first = False
        if isinstance(e, ast.Attribute):
            # cls.x / ClassName.x / type(self).x / self.__class__.x
            if isinstance(inner, ast.Name) and inner.id == "cls":
                return ("class", f"cls.{e.attr}")
            if isinstance(inner, ast.Name) and inner.id in cls_names and inner.id not in local_names:
                return ("class", f"{inner.id}.{e.attr}")
            if isinstance(inner, ast.Call) and isinstance(inner.func, ast.Name) and inner.func.id == "type":
                return ("class", f"type(self).{e.attr}")
            if isinstance(inner, ast.Attribute) and inner.attr == "__class__":
                return ("class", f"self.__class__.{e.attr}")
        e = inner
    if isinstance(e, ast.Name) and e.id in mod_names and e.id not in local_names:
        return ("module", e.id)
    return None


def scan():
    rows = []
    CLASS_MUTABLES.clear()
    for root, _, files in sorted(os.walk(SRC)):
        for f in sorted(files):
            if f.endswith(".py"):
                try:
                    CLASS_MUTABLES.update(class_mutables(ast.parse(open(os.path.join(root, f)).read())))
                except SyntaxError:
                    pass
    CLASS_MUTABLES.discard("params")
    for root, _, files in sorted(os.walk(SRC)):
        for f in sorted(files):
            if not f.endswith(".py"):
                continue
            path = os.path.join(root, f)
            rel = os.path.relpath(path, SRC)
            try:
                tree = ast.parse(open(path).read())
            except SyntaxError:
                continue
            mods, clss = module_level_names(tree), class_names(tree)

            def visit_fn(fn, qual):
                # locals: parameters and names assigned in the function (plain Name stores), unless declared global
                globs = {n for st in ast.walk(fn) if isinstance(st, ast.Global) for n in st.names}
                local = {a.arg for a in fn.args.args + fn.args.kwonlyargs} | ({fn.args.vararg.arg} if fn.args.vararg else set()) | ({fn.args.kwarg.arg} if fn.args.kwarg else set())
                for st in ast.walk(fn):
                    if isinstance(st, (ast.Assign, ast.AugAssign, ast.AnnAssign, ast.For, ast.With, ast.comprehension)):
                        tg = st.targets if isinstance(st, ast.Assign) else ([st.target] if hasattr(st, "target") else [])
                        for t in tg:
                            for n in ast.walk(t) if not isinstance(t, (ast.Subscript, ast.Attribute)) else []:
                                if isinstance(n, ast.Name) and n.id not in globs:
                                    local.add(n.id)
                for g in sorted(globs):
                    rows.append((f"{rel}:{qual}", f"global {g}"))
                for st in ast.walk(fn):
                    tgs = []
                    if isinstance(st, ast.Assign):
                        tgs = st.targets
                    elif isinstance(st, (ast.AugAssign, ast.AnnAssign)):
                        tgs = [st.target]
                    elif isinstance(st, ast.Delete):
                        tgs = st.targets
                    for t in tgs:
                        for tt in (t.elts if isinstance(t, (ast.Tuple, ast.List)) else [t]):
                            if isinstance(tt, (ast.Subscript, ast.Attribute)):
                                rk = root_kind(tt, mods, clss, local)
                                if rk:
                                    rows.append((f"{rel}:{qual}", f"store into {rk[0]}-level {rk[1]}"))
                    if isinstance(st, ast.Call) and isinstance(st.func, ast.Attribute) and st.func.attr in MUTATORS:
                        v_ = st.func.value
                        if isinstance(v_, ast.Attribute) and isinstance(v_.value, ast.Name) and v_.value.id == "self" and v_.attr in CLASS_MUTABLES:
                            rows.append((f"{rel}:{qual}", f"{st.func.attr}() on class-level self.{v_.attr} (class-body container)"))
                            continue
                        rk = root_kind(st.func.value, mods, clss, local) if isinstance(st.func.value, (ast.Subscript, ast.Attribute)) else \
                            (("module", st.func.value.id) if isinstance(st.func.value, ast.Name) and st.func.value.id in mods and st.func.value.id not in local else None)
                        if rk:
                            rows.append((f"{rel}:{qual}", f"{st.func.attr}() on {rk[0]}-level {rk[1]}"))

            def walk(node, prefix):
                for ch in ast.iter_child_nodes(node):
                    if isinstance(ch, ast.ClassDef):
                        walk(ch, prefix + [ch.name])
                    elif isinstance(ch, (ast.FunctionDef, ast.AsyncFunctionDef)):
                        visit_fn(ch, ".".join(prefix + [ch.name]))
                    elif isinstance(ch, (ast.If, ast.Try, ast.With)):
                        walk(ch, prefix)
            walk(tree, [])
    return sorted(set(rows))


def emit():
    rows = scan()
    L = ["/-! GENERATED by tools/pystate.py from /repo/src/hmf — do not edit. -/", "namespace Hmf.Gen", "",
         "/-- every store, made inside a function or method of the package, into a module-level name or a class-level attribute:",
         "    (file:function, what) -/",
         "def sharedStateWrites : List (String × String) := ["]
    L.append(",\n".join(f"  ({lean_str(a)}, {lean_str(b)})" for a, b in rows))
    L += ["]", "", "end Hmf.Gen", ""]
    text = "\n".join(L)
    out = os.path.join(VERIF, "lean", "HmfVerif", "Gen", "SharedState.lean")
    if not os.path.exists(out) or open(out).read() != text:
        open(out, "w").write(text)
    return rows


if __name__ == "__main__":
    rows_ = emit()
    print("pystate: shared-state writes", len(rows_))
    if "-v" in sys.argv:
        for r in rows_:
            print(r)
