#!/bin/bash
# proof-robustness self-test (development aid, never run by a check): regenerate the terms as if every `a*b` / `a+b` in the
# translated source were written `b*a` / `b+a` (a semantics-preserving rewrite), build all property files in a scratch copy of
# /verif and list the theorems that no longer check.  Those proofs depend on operand order and should be hardened.
# usage: [REASSOC=1] tools/robustness.sh [--keep]   (REASSOC=1 additionally re-associates (a*b)*c -> a*(b*c), (a+b)+c -> a+(b+c))
#   (scratch copy /tmp/vrobust is removed unless --keep)
V=/tmp/vrobust; mkdir -p $V; rsync -a --delete --exclude .git --exclude .work --exclude replays --exclude seeded --exclude 'lean/.lake' --exclude 'lean/HmfVerif/Gen' /verif/ $V/
mkdir -p $V/lean/HmfVerif/Gen
cd $V && PYEXPR_SWAP=1 PYEXPR_REASSOC=${REASSOC:-} /venv/bin/python -B tools/gen_all.py > /dev/null
cd $V/lean && lake build 2>&1 | grep -E "error:" | grep -v "Lean exited\|build failed" | sed 's#^.*HmfVerif/##' | cut -c1-150 | sort
[ "$1" = "--keep" ] || rm -rf $V
