#!/bin/bash
# run every claimed check for the given seeds (default 0 1 2) on the current tree; summary on stdout
seeds="${@:-0 1 2}"
ids=$(python3 -c "import json; print(' '.join(c['property_id'] for c in json.load(open('/verif/MANIFEST.json'))['checks']))")
for s in $seeds; do
  for id in $ids; do
    out=$(VERIF_SEED=$s /verif/check $id --tier quick 2>&1 | grep -E "^VIOLATION|INFRA|^$id:" | cut -c1-160 | tr '\n' ' ')
    echo "seed=$s $out"
  done
done
