#!/bin/bash
# usage: tools/try_mutant.sh <patch.diff> <ID> [<ID>...]   — apply to /repo, run quick checks, revert
patch="$1"; shift
cd /repo && git apply "$patch" || { echo "APPLY-FAILED"; exit 3; }
cd /verif
for id in "$@"; do
  out=$(./check "$id" --tier quick 2>&1 | grep -E "^VIOLATION|^KNOWN|^C[0-9]+:|INFRA" | cut -c1-220)
  echo "[$id] $out"
done
git -C /repo checkout -- . 
/venv/bin/python -B tools/gen_all.py > /dev/null
